"""Abstract compilation units (the syntax of PlcModel/Analyze.lean): generator of valid units,
fault planting, ST printer and model encoder.  Shared by C02, C03, C06.

decl forms (python tuples):
  ('E', name, [values], dflt|None)          enumeration type
  ('A', name, base)                         alias of an enumeration type
  ('S', name, [(ename, ty[, init])])        structure type (init: an enumeration value for an element of an enumeration type)
  ('R', name, lo, hi)                       subrange type
  ('T', name, width)                        string type `name : STRING[width]` (the model has no such declaration: it is encoded
                                            as a structure type with one INT element, which the rules treat alike as long as no
                                            constant / initialised variable of the type is generated)
  ('F'|'U'|'P', name, [vars], [stmts])      function block / function / program
  ('C', name, [globals], [tasks], [(inst, task|None, progtype)])
var  = dict(name, cls in 'viox eg'.replace(' ',''), const bool, ty in 'b','i',('n',k), init int|None)
stmt = ('a', target, [rhs]) | ('c', inst, [(formal, var)], [positional], [(out, target)])
     | ('s', target, array, index)          `target := array[index];` (the model sees an assignment with the two names on the right)
     | ('e', target, value)                 `target := value;` with an enumeration-typed, initialised variable and a value of
                                            its enumeration (an assignment of a literal for the model)
     an assignment may carry a fourth component (kind, name): it is written inside a statement whose condition / selector /
     control variable is the variable `name` (`IF name > 0 THEN … END_IF`, WHILE, REPEAT … UNTIL, CASE name OF, FOR name := …,
     ELSIF); for the model `name` is one more name read by the statement
var ty 'a' = ARRAY[0..3] OF INT (an INT variable for the model)
"""
import copy

CLS_KW = {'v': 'VAR', 'i': 'VAR_INPUT', 'o': 'VAR_OUTPUT', 'x': 'VAR_IN_OUT', 'e': 'VAR_EXTERNAL', 'g': 'VAR_GLOBAL'}
TON = 9000


def nm(n):
    return 'TON' if n == TON else f'N{n}'


STR_FORMS = ['STRING', 'STRING[10]', 'WSTRING', 'WSTRING[5]', 'STRING[1]']


def ty_st(t, key=0):
    if t == 's': return STR_FORMS[key % len(STR_FORMS)]
    if isinstance(t, str) and t.startswith('f:'): return f'ARRAY[1..2] OF {nm(int(t[2:]))}'   # an array of function block instances
    return {'b': 'BOOL', 'i': 'INT', 'a': 'ARRAY[0..3] OF INT'}.get(t) if isinstance(t, str) else nm(t[1])


def ty_enc(t):
    if t == 'a' or (isinstance(t, str) and t.startswith('f:')): return 'i'   # (the analyzer follows no reference through an array)
    return t if isinstance(t, str) else f'n{t[1]}'


def var(name, cls='v', ty='i', init=None, const=False):
    return {'name': name, 'cls': cls, 'const': const, 'ty': ty, 'init': init}


# ------------------------------------------------------------------------------------------------
# printing
# ------------------------------------------------------------------------------------------------

class Style:
    """spelling choices of the printer that leave the abstract unit unchanged: an enumerated value written with or
    without the name of its type (`T#V` / `V`) per occurrence, and the letter case of every identifier occurrence"""
    def __init__(self, rng=None, vary=False):
        self.rng = rng; self.vary = vary and rng is not None
    def enumval(self, tname, v):
        if self.vary and self.rng.random() < 0.35: return f'{nm(tname)}#{nm(v)}'
        return nm(v)
    def respell(self, text):
        if not self.vary: return text
        import re
        return re.sub(r'\bN(\d+)\b', lambda m: ('n' if self.rng.random() < 0.5 else 'N') + m.group(1), text)


PLAIN = Style()


def print_vars(vs, indent='  ', sty=PLAIN):
    out = []
    # consecutive variables with the same class and qualifier share a block
    i = 0
    while i < len(vs):
        j = i
        while j < len(vs) and (vs[j]['cls'], vs[j]['const']) == (vs[i]['cls'], vs[i]['const']):
            j += 1
        out.append(f"{indent}{CLS_KW[vs[i]['cls']]}{' CONSTANT' if vs[i]['const'] else ''}\n")
        for v in vs[i:j]:
            init = ''
            if v['init'] is not None:
                if v['ty'] == 'b': init = ' := ' + ('TRUE' if v['init'] else 'FALSE')
                elif v['ty'] == 'i': init = f" := {v['init']}"
                elif v['ty'] == 's':
                    # the literal kind follows the type (STRING: single quotes, WSTRING: double quotes)
                    q = '"' if ty_st('s', v.get('sform', 0)).startswith('W') else "'"
                    init = f" := {q}{['log', '', 'a b', 'x'][v['init'] % 4]}{q}"
                else: init = f" := {sty.enumval(v['ty'][1], v['init'])}"
            out.append(f"{indent}  {nm(v['name'])} : {ty_st(v['ty'], v.get('sform', 0))}{init};\n")
        out.append(f'{indent}END_VAR\n')
        i = j
    return ''.join(out)


COND_WRAPS = {
    'if': lambda c, s, i: f'{i}IF {c} > 0 THEN\n{s}{i}END_IF;\n',
    'elsif': lambda c, s, i: f'{i}IF FALSE THEN\n{i}ELSIF {c} = 1 THEN\n{s}{i}END_IF;\n',
    'while': lambda c, s, i: f'{i}WHILE {c} < 0 DO\n{s}{i}END_WHILE;\n',
    'repeat': lambda c, s, i: f'{i}REPEAT\n{s}{i}UNTIL {c} > 0 END_REPEAT;\n',
    'case': lambda c, s, i: f'{i}CASE {c} OF\n{i}1:\n{s}{i}END_CASE;\n',
    'for': lambda c, s, i: f'{i}FOR {c} := 0 TO 1 DO\n{s}{i}END_FOR;\n',
    'for-to': lambda c, s, i: f'{i}FOR {c} := 0 TO {c} BY {c} DO\n{s}{i}END_FOR;\n',
}
WRAPS = [
    lambda s, i: f'{i}IF TRUE THEN\n{s}{i}END_IF;\n',
    lambda s, i: f'{i}IF FALSE THEN\n{i}ELSE\n{s}{i}END_IF;\n',
    lambda s, i: f'{i}IF FALSE THEN\n{i}ELSIF TRUE THEN\n{s}{i}END_IF;\n',
    lambda s, i: f'{i}WHILE FALSE DO\n{s}{i}END_WHILE;\n',
    lambda s, i: f'{i}REPEAT\n{s}{i}UNTIL TRUE END_REPEAT;\n',
    lambda s, i: f'{i}CASE 1 OF\n{i}1:\n{s}{i}END_CASE;\n',
    lambda s, i: f'{i}CASE 1 OF\n{i}2, 3:\n{s}{i}ELSE\n{s}{i}END_CASE;\n',
]


def print_stmt(s, rng=None, indent='  '):
    if s[0] == 'a':
        rhs = ' + '.join(nm(r) for r in s[2]) if s[2] else '1'
        txt = f'{indent}{nm(s[1])} := {rhs};\n'
        if len(s) > 3 and s[3]:
            txt = COND_WRAPS[s[3][0]](nm(s[3][1]), ''.join('  ' + l + '\n' for l in txt.rstrip('\n').split('\n')), indent)
    elif s[0] == 's':
        txt = f'{indent}{nm(s[1])} := {nm(s[2])}[{nm(s[3])}];\n'
    elif s[0] == 'e':
        txt = f'{indent}{nm(s[1])} := {nm(s[2])};\n'
    else:
        ins = [f'{nm(f)} := {nm(v)}' for f, v in s[2]] + [nm(p) for p in s[3]]
        outs = [f'{nm(o)} => {nm(t)}' for o, t in s[4]]
        args = ins + outs
        if rng is not None and outs and rng.random() < 0.6:
            # outputs may stand anywhere in the argument list (before, between, after the inputs); the inputs keep their order
            k = rng.choice(['first', 'mixed'])
            if k == 'first': args = outs + ins
            else:
                args, a, b = [], list(ins), list(outs)
                while a or b:
                    src = a if (a and (not b or rng.random() < 0.5)) else b
                    args.append(src.pop(0))
        txt = f"{indent}{nm(s[1])}({', '.join(args)});\n"
    if rng is not None:
        depth = rng.choice([0, 0, 1, 2, 3])
        for _ in range(depth):
            txt = rng.choice(WRAPS)(''.join('  ' + l + '\n' for l in txt.rstrip('\n').split('\n')), indent)
    return txt


def print_decl(d, rng=None, sty=PLAIN):
    k = d[0]
    if k == 'E':
        dflt = f' := {sty.enumval(d[1], d[3])}' if d[3] is not None else ''
        return f"TYPE\n  {nm(d[1])} : ({', '.join(sty.enumval(d[1], v) for v in d[2])}){dflt};\nEND_TYPE\n"
    if k == 'A':
        return f'TYPE\n  {nm(d[1])} : {nm(d[2])};\nEND_TYPE\n'
    if k == 'S':
        es = ''.join(f"    {nm(e[0])} : {ty_st(e[1])}{' := ' + sty.enumval(e[1][1], e[2]) if len(e) > 2 and e[2] is not None else ''};\n" for e in d[2])
        return f'TYPE\n  {nm(d[1])} : STRUCT\n{es}  END_STRUCT;\nEND_TYPE\n'
    if k == 'R':
        return f'TYPE\n  {nm(d[1])} : INT ({d[2]}..{d[3]});\nEND_TYPE\n'
    if k == 'T':
        return f'TYPE\n  {nm(d[1])} : STRING[{d[2]}];\nEND_TYPE\n'
    if k in 'FUP':
        head = {'F': 'FUNCTION_BLOCK', 'U': 'FUNCTION', 'P': 'PROGRAM'}[k]
        ret = ' : INT' if k == 'U' else ''
        body = ''.join(print_stmt(s, rng) for s in d[3])
        return f'{head} {nm(d[1])}{ret}\n{print_vars(d[2], sty=sty)}{body}END_{head}\n'
    if k == 'C':
        tasks = ''.join(f'    TASK {nm(t)}(INTERVAL := T#100ms, PRIORITY := 1);\n' for t in d[3])
        progs = ''.join(f"    PROGRAM {nm(i)}{' WITH ' + nm(t) if t is not None else ''} : {nm(p)};\n" for i, t, p in d[4])
        return f'CONFIGURATION {nm(d[1])}\n{print_vars(d[2], sty=sty)}  RESOURCE N8000 ON PLC\n{tasks}{progs}  END_RESOURCE\nEND_CONFIGURATION\n'
    raise ValueError(d)


OSCAT_BODIES = ['\n', ' (* doc *) ', '\n(* version 1.1 *)\n(* author: nobody *)\n', '\r\n(* Gr\u00f6\u00dfe *)\r\n', '\n\n\t\n']


def oscat_header(rng):
    """an OSCAT description header whose body is layout and comments only: with or without the blanking of
    preprocessor.rs the text means the same, wherever and however often it stands between declarations"""
    return '(*@KEY@:DESCRIPTION*)' + rng.choice(OSCAT_BODIES) + '(*@KEY@:END_DESCRIPTION*)\n'


def print_file(decls, rng=None, vary=False, headers=None):
    """headers: a random source -> declarations are preceded (each with probability 0.6) by an OSCAT description header"""
    sty = Style(rng, vary)
    parts = [print_decl(d, rng, sty) for d in decls]
    if headers is not None:
        parts = [(oscat_header(headers) if headers.random() < 0.6 else '') + p for p in parts]
    return sty.respell('\n'.join(parts))


# ------------------------------------------------------------------------------------------------
# model encoding
# ------------------------------------------------------------------------------------------------

def enc_int(n):
    return f'm{-n}' if n < 0 else str(n)


def enc_var(v):
    return f"{v['name']}.{v['cls']}.{1 if v['const'] else 0}.{ty_enc(v['ty'])}.{'-' if v['init'] is None else v['init']}"


def enc_stmt(s):
    if s[0] == 'a':
        return f"a.{s[1]}.{'+'.join(str(r) for r in (list(s[2]) + ([s[3][1]] if len(s) > 3 and s[3] else [])))}"
    if s[0] == 's':
        return f"a.{s[1]}.{s[2]}+{s[3]}"
    if s[0] == 'e':
        return f"a.{s[1]}."
    return f"c.{s[1]}.{'+'.join(f'{a}={b}' for a, b in s[2])}.{'+'.join(str(p) for p in s[3])}.{'+'.join(f'{a}={b}' for a, b in s[4])}"


def enc_decl(d):
    k = d[0]
    if k == 'E': return f"E:{d[1]}:{','.join(str(v) for v in d[2])}:{'-' if d[3] is None else d[3]}"
    if k == 'A': return f'A:{d[1]}:{d[2]}'
    if k == 'S': return f"S:{d[1]}:{','.join(f'{e[0]}.{ty_enc(e[1])}' + (f'.{e[2]}' if len(e) > 2 and e[2] is not None else '') for e in d[2])}"
    if k == 'R': return f'R:{d[1]}:{enc_int(d[2])}:{enc_int(d[3])}'
    if k == 'T': return f'S:{d[1]}:7990.i'
    if k in 'FUP': return f"{k}:{d[1]}:{','.join(enc_var(v) for v in d[2])}:{','.join(enc_stmt(s) for s in d[3])}"
    if k == 'C':
        return f"C:{d[1]}:{','.join(enc_var(v) for v in d[2])}:{','.join(str(t) for t in d[3])}:{','.join(f'{i}.{chr(45) if t is None else t}.{p}' for i, t, p in d[4])}"
    raise ValueError(d)


def enc_unit(files):
    """files: list of (decl list | 'X')"""
    parts = []
    for f in files:
        parts.append('X' if f == 'X' else ' '.join(enc_decl(d) for d in f))
    return 'unit ' + ' | '.join(parts)


# ------------------------------------------------------------------------------------------------
# generation of valid units
# ------------------------------------------------------------------------------------------------

class Names:
    def __init__(self, start=1):
        self.n = start
    def new(self):
        self.n += 1
        return self.n - 1


def gen_valid(rng, size=None):
    """-> list of declarations forming a valid, fully declared unit inside the supported fragment"""
    ns = Names()
    size = size or rng.choice([1, 2, 3])
    decls = []
    enums = []      # (type name, values)
    structs = []
    fbs = []        # (name, decl)
    # types
    for _ in range(rng.randint(1, size)):
        t = ns.new(); vals = [ns.new() for _ in range(rng.randint(1, 4))]
        decls.append(('E', t, vals, rng.choice([None, vals[0]])))
        enums.append((t, vals))
        if rng.random() < 0.4:
            a = ns.new(); decls.append(('A', a, t)); enums.append((a, vals))
            if rng.random() < 0.3:
                a2 = ns.new(); decls.append(('A', a2, a)); enums.append((a2, vals))
    for _ in range(rng.randint(0, size)):
        t = ns.new()
        es = []
        for _ in range(rng.randint(1, 3)):
            r = rng.random()
            if r < 0.2:
                # an element of an enumeration type with an initial value
                et, vals = rng.choice(enums)
                es.append((ns.new(), ('n', et), rng.choice(vals))); continue
            ty = 'i' if r < 0.45 else 'b' if r < 0.6 else ('n', rng.choice(enums)[0]) if r < 0.8 or not structs else ('n', rng.choice(structs))
            es.append((ns.new(), ty))
        decls.append(('S', t, es)); structs.append(t)
    for _ in range(rng.randint(0, size)):
        lo = rng.randint(-5, 5)
        decls.append(('R', ns.new(), lo, lo + rng.randint(1, 10)))
    # a string type, used by a structure element (declared before or after the structure) and by variables
    strtypes = []
    if rng.random() < 0.4:
        t = ns.new(); strtypes.append(t)
        sidx = [i for i, d in enumerate(decls) if d[0] == 'S']
        if sidx and rng.random() < 0.7:
            i = rng.choice(sidx); d = decls[i]
            decls[i] = ('S', d[1], list(d[2]) + [(ns.new(), ('n', t))])
        decls.insert(rng.randrange(len(decls) + 1), ('T', t, rng.choice([1, 20, 80])))
    # configuration globals (named first so that programs can declare externals)
    gconst = rng.random() < 0.5
    globals_ = [var(ns.new(), 'g', 'i', rng.randint(0, 99), gconst) for _ in range(rng.randint(0, 2))]

    def pou_vars_and_body(kind, self_name):
        vs = []
        ints = []
        for cls in (['i', 'o', 'x', 'v'] if kind == 'F' else ['i', 'v'] if kind == 'U' else ['v']):
            for _ in range(rng.randint(1 if cls in 'iv' else 0, 2)):
                v = var(ns.new(), cls, rng.choice(['i', 'i', 'b']), None)
                if cls == 'v' and rng.random() < 0.3: v['init'] = rng.randint(0, 1) if v['ty'] == 'b' else rng.randint(0, 50)
                vs.append(v)
                if v['ty'] == 'i': ints.append(v['name'])
        if not ints:
            v = var(ns.new(), 'v', 'i'); vs.append(v); ints.append(v['name'])
        # constants with initialisers; sometimes a local constant that has the name of a (non-constant)
        # configuration global which other POUs import as a non-constant external: legal shadowing
        if rng.random() < 0.4:
            v = var(ns.new(), 'v', 'i', rng.randint(0, 9), True); vs.append(v)
        elif globals_ and not gconst and kind == 'U' and rng.random() < 0.7:
            vs.append(var(globals_[0]['name'], 'v', 'i', rng.randint(0, 9), True))
        # character string variables: plain, initialised, and constant with an initial value
        # (the parser has no length form for string variables of a FUNCTION)
        sforms = [0, 2] if kind == 'U' else [0, 1, 2, 3, 4]
        if rng.random() < 0.5:
            vs.append(dict(var(ns.new(), 'v', 's', rng.choice([None, rng.randint(0, 3)])), sform=rng.choice(sforms)))
        if rng.random() < 0.4:
            vs.append(dict(var(ns.new(), 'v', 's', rng.randint(0, 3), True), sform=rng.choice(sforms)))
        # enumeration typed locals (always initialised: see Analyze.lean stage 3)
        enumvars = []
        if rng.random() < 0.6:
            t, vals = rng.choice(enums)
            ev = var(ns.new(), 'v', ('n', t), rng.choice(vals)); vs.append(ev); enumvars.append((ev['name'], vals))
        if structs and rng.random() < 0.3:
            vs.append(var(ns.new(), 'v', ('n', rng.choice(structs))))
        if strtypes and rng.random() < 0.4:
            vs.append(var(ns.new(), 'v', ('n', strtypes[0])))
        # an array and a read of one of its elements with a variable as the subscript
        arrays = []
        if kind != 'U' and rng.random() < 0.4:       # (the variable blocks of a FUNCTION have no array form in this parser)
            av = var(ns.new(), rng.choice(['v', 'i'] if kind != 'P' else ['v']), 'a'); vs.append(av); arrays.append(av['name'])
        # externals of the configuration globals
        if kind != 'U':
            for g in globals_:
                if rng.random() < 0.5:
                    vs.append(var(g['name'], 'e', 'i', None, g['const']))
                    ints.append(g['name'])
        body = []
        # function block instances and calls
        insts = []
        if kind in 'FP' and fbs:
            for _ in range(rng.randint(0, 2)):
                callee = rng.choice(fbs)
                iv = var(ns.new(), 'v', ('n', callee[0])); vs.append(iv); insts.append((iv['name'], callee[1]))
            # an array of instances of a function block (never called, never assigned)
            if rng.random() < 0.3:
                vs.append(var(ns.new(), 'v', f'f:{rng.choice(fbs)[0]}'))
        # (assignment to a VAR_IN_OUT target is P9999 in the analyzer: not generated)
        writable = [v['name'] for v in vs if v['ty'] == 'i' and v['cls'] in 'vo' and not v['const']]
        if not writable:
            v = var(ns.new(), 'v', 'i'); vs.append(v); ints.append(v['name']); writable = [v['name']]
        for _ in range(rng.randint(1, 3)):
            body.append(('a', rng.choice(writable + ([self_name] if kind == 'U' else [])),
                         [rng.choice(ints) for _ in range(rng.randint(0, 3))]))
        for a in arrays:
            body.append(('s', rng.choice(writable), a, rng.choice(ints)))
        for (en, vals) in enumvars:
            if rng.random() < 0.6: body.append(('e', en, rng.choice(vals)))
        # some assignments stand inside a statement whose condition / selector / control variable is a variable
        loopvars = [v['name'] for v in vs if v['ty'] == 'i' and v['cls'] == 'v' and not v['const']]
        for j, st in enumerate(body):
            if st[0] == 'a' and rng.random() < 0.35:
                kind = rng.choice(sorted(COND_WRAPS))
                pool = loopvars if kind.startswith('for') else ints
                if pool: body[j] = ('a', st[1], st[2], (kind, rng.choice(pool)))
        for (iname, callee) in insts:
            cin = [v for v in callee[2] if v['cls'] in 'ix']
            cin_only = [v for v in callee[2] if v['cls'] == 'i']
            cout = [v for v in callee[2] if v['cls'] == 'o']
            def arg(v):
                cands = [x['name'] for x in vs if x['ty'] == v['ty'] and x['cls'] in 'viox' and not x['const']]
                return rng.choice(cands) if cands else None
            outs = [(o['name'], arg(o)) for o in cout if rng.random() < 0.6]
            outs = [(a, b) for a, b in outs if b is not None]
            if rng.random() < 0.6 or any(arg(v) is None for v in cin_only):
                formal = [(v['name'], arg(v)) for v in cin if rng.random() < 0.7]
                formal = [(a, b) for a, b in formal if b is not None]
                body.append(('c', iname, formal, [], outs))
            else:
                body.append(('c', iname, [], [arg(v) for v in cin_only], outs))
        rng.shuffle(body)
        return vs, body

    for _ in range(rng.randint(1, size + 1)):
        n = ns.new(); vs, body = pou_vars_and_body('F', n)
        d = ('F', n, vs, body); decls.append(d); fbs.append((n, d))
    for _ in range(rng.randint(0, size)):
        n = ns.new(); vs, body = pou_vars_and_body('U', n)
        if not any(s[0] == 'a' and s[1] == n for s in body):
            ints = [v['name'] for v in vs if v['ty'] == 'i']
            body.append(('a', n, ints[:1]))
        decls.append(('U', n, vs, body))
    progs = []
    for _ in range(rng.randint(1, size)):
        n = ns.new(); vs, body = pou_vars_and_body('P', n)
        decls.append(('P', n, vs, body)); progs.append(n)
    tasks = [ns.new() for _ in range(rng.randint(1, 2))]
    insts = [(ns.new(), rng.choice(tasks + [None]), rng.choice(progs)) for _ in range(rng.randint(1, 2))]
    decls.append(('C', ns.new(), globals_, tasks, insts))
    # sometimes a second configuration with globals, tasks and program instances of its own
    if rng.random() < 0.3:
        g2const = rng.random() < 0.5   # (a configuration has one VAR_GLOBAL block)
        g2 = [var(ns.new(), 'g', 'i', rng.randint(0, 99), g2const) for _ in range(rng.randint(0, 2))]
        t2 = [ns.new() for _ in range(rng.randint(1, 2))]
        i2 = [(ns.new(), rng.choice(t2 + [None]), rng.choice(progs)) for _ in range(rng.randint(1, 2))]   # (a resource has at least one program)
        decls.append(('C', ns.new(), g2, t2, i2))
        # an external of a global of the second configuration in a new function block
        if g2:
            g = g2[0]; n = ns.new(); a = ns.new()
            decls.append(('F', n, [var(a, 'v', 'i'), var(g['name'], 'e', 'i', None, g['const'])], [('a', a, [g['name']])]))
    # legal shadowing: a local CONSTANT in one POU with the name of a non-constant global that another POU
    # imports as a non-constant external (the external rule is about constant *globals* only)
    if globals_ and not gconst and rng.random() < 0.5:
        g = globals_[0]['name']
        if any(v['name'] == g and v['cls'] == 'e' for d in decls if d[0] in 'FP' for v in d[2]):
            n = ns.new(); a = ns.new()
            decls.append(('U', n, [var(a, 'i', 'i'), var(g, 'v', 'i', 3, True)], [('a', n, [a, g])]))
    return decls, ns


def split_files(rng, decls, nfiles):
    order = list(decls)
    rng.shuffle(order)
    files = [[] for _ in range(nfiles)]
    for d in order:
        files[rng.randrange(nfiles)].append(d)
    return files


# ------------------------------------------------------------------------------------------------
# fault planting: each returns a list of mutated units (one per applicable site) with the expected code
# ------------------------------------------------------------------------------------------------

def plant_all(decls, ns, rng):
    """-> list of (fault kind, expected code, mutated decls) for every applicable site of every fault kind"""
    out = []
    def mut(i, newd):
        ds = copy.deepcopy(decls); ds[i] = newd; return ds
    fbnames = {d[1]: d for d in decls if d[0] == 'F'}
    # a declaration written twice, word for word, next to itself (equal trees must still count as two declarations)
    for i, d in enumerate(decls):
        if d[0] in 'ESRAFUP' and i % 3 == 0:
            ds = copy.deepcopy(decls); ds.insert(i + 1, copy.deepcopy(d))
            out.append(('dup-verbatim-adjacent', 'P0019' if d[0] in 'ESRA' else 'P0020', ds))
    for i, d in enumerate(decls):
        k = d[0]
        if k == 'S':
            es = list(d[2]); es.append((es[0][0], 'i'))
            out.append(('struct-dup-element', 'P0003', mut(i, ('S', d[1], es))))
            # one fresh name used for three elements: every later use is a duplicate of the first one
            out.append(('struct-element-thrice', 'P0003', mut(i, ('S', d[1], list(d[2]) + [(7991, 'i'), (7991, 'i'), (7991, 'i')]))))
            for j, e in enumerate(d[2]):
                if len(e) > 2 and e[2] is not None:
                    es = list(d[2]); es[j] = (e[0], e[1], 7998)
                    out.append(('struct-elem-enum-value-undefined', 'P0014', mut(i, ('S', d[1], es))))
                    es = list(d[2]); es[j] = (e[0], ('n', 7997), e[2])
                    out.append(('struct-elem-enum-type-undeclared', 'P0012', mut(i, ('S', d[1], es))))
        if k == 'R':
            out.append(('subrange-min-gt-max', 'P0004', mut(i, ('R', d[1], d[3], d[2]))))
            out.append(('subrange-min-eq-max', 'P0004', mut(i, ('R', d[1], d[2], d[2]))))
        if k == 'E':
            out.append(('enum-dup-value', 'P0005', mut(i, ('E', d[1], d[2] + [d[2][0]], d[3]))))
            out.append(('enum-value-thrice', 'P0005', mut(i, ('E', d[1], d[2] + [7990, 7990, 7990], d[3]))))
        if k == 'C':
            for j, (inst, t, p) in enumerate(d[4]):
                insts = list(d[4]); insts[j] = (inst, 7999, p)
                out.append(('task-undefined', 'P0011', mut(i, ('C', d[1], d[2], d[3], insts))))
        if k in 'FUP':
            vs, body = d[2], d[3]
            # per variable faults
            for j, v in enumerate(vs):
                if isinstance(v['ty'], tuple) and v['init'] is not None:
                    nv = dict(v, init=7998)
                    out.append(('enum-value-undefined', 'P0014', mut(i, (k, d[1], vs[:j] + [nv] + vs[j + 1:], body))))
                if v['const'] and v['init'] is not None and v['cls'] != 'e':
                    nv = dict(v, init=None)
                    out.append(('const-no-init', 'P0016', mut(i, (k, d[1], vs[:j] + [nv] + vs[j + 1:], body))))
                if v['cls'] == 'e' and v['const']:
                    nv = dict(v, const=False)
                    out.append(('external-not-const', 'P0018', mut(i, (k, d[1], vs[:j] + [nv] + vs[j + 1:], body))))
                if isinstance(v['ty'], tuple) and v['ty'][1] in fbnames and not v['const']:
                    nv = dict(v, const=True)
                    out.append(('const-fb', 'P0017', mut(i, (k, d[1], vs[:j] + [nv] + vs[j + 1:], body))))
            # a new variable of an unknown / unsupported type
            if k != 'U':
                out.append(('stdlib-fb', 'P0029', mut(i, (k, d[1], vs + [var(ns.n + 5, 'v', ('n', TON))], body))))
                # ... and the instance invoked as well (the standard function block has no declaration to look the call up in)
                out.append(('stdlib-fb-called', 'P0029', mut(i, (k, d[1], vs + [var(ns.n + 5, 'v', ('n', TON))], body + [('c', ns.n + 5, [], [], [])]))))
            out.append(('unknown-type', 'P0022', mut(i, (k, d[1], vs + [var(ns.n + 6, 'v', ('n', 7997))], body))))
            # a variable that only a neighbouring POU declares (scopes must not leak from one POU to the next)
            own = {v['name'] for v in vs}
            for di in (i - 1, i + 1):
                if 0 <= di < len(decls) and decls[di][0] in 'FUP':
                    foreign = [v['name'] for v in decls[di][2] if v['ty'] == 'i' and v['name'] not in own and v['cls'] != 'e']
                    js = [j for j, s in enumerate(body) if s[0] == 'a']
                    if foreign and js:
                        j = js[0]; s = body[j]
                        out.append(('undefined-var-declared-in-neighbour', 'P0015', mut(i, (k, d[1], vs, body[:j] + [('a', s[1], s[2] + [foreign[0]])] + body[j + 1:]))))
            # the name of a function declared elsewhere in the unit used as a variable (the name of a function is a variable
            # inside that function only)
            # ... and likewise the name of another function block or program (one fault per kind of the other declaration)
            seen_kinds = set()
            for fd in decls:
                if fd[0] in 'UFP' and fd[0] not in seen_kinds and fd[1] != d[1] and fd[1] not in own:
                    js = [j for j, s in enumerate(body) if s[0] == 'a']
                    if js:
                        seen_kinds.add(fd[0])
                        j = js[0]; s = body[j]
                        kind_name = 'undefined-var-named-like-function' if fd[0] == 'U' else 'undefined-var-named-like-pou'
                        out.append((kind_name, 'P0015', mut(i, (k, d[1], vs, body[:j] + [('a', s[1], list(s[2]) + [fd[1]]) + tuple(s[3:])] + body[j + 1:]))))
            # a global variable of a configuration used without a VAR_EXTERNAL declaration
            for cd in decls:
                if cd[0] == 'C':
                    gl = [v['name'] for v in cd[2] if v['ty'] == 'i' and v['name'] not in own]
                    js = [j for j, s in enumerate(body) if s[0] == 'a']
                    if gl and js:
                        j = js[0]; s = body[j]
                        out.append(('global-used-without-external', 'P0015', mut(i, (k, d[1], vs, body[:j] + [('a', s[1], s[2] + [gl[0]])] + body[j + 1:]))))
                    break
            # a call of a function block instance that only a neighbouring POU declares
            if k != 'U':
                for di in (i - 1, i + 1):
                    if 0 <= di < len(decls) and decls[di][0] in 'FP':
                        finst = [v['name'] for v in decls[di][2] if isinstance(v['ty'], tuple) and v['ty'][1] in fbnames and v['name'] not in own]
                        if finst:
                            out.append(('call-instance-declared-in-neighbour', 'P0021', mut(i, (k, d[1], vs, body + [('c', finst[0], [], [], [])]))))
            # per statement faults
            for j, s in enumerate(body):
                if s[0] == 'e': continue
                if s[0] == 'a' and len(s) > 3 and s[3]:
                    out.append(('undefined-var-condition', 'P0015', mut(i, (k, d[1], vs, body[:j] + [('a', s[1], s[2], (s[3][0], 7996))] + body[j + 1:]))))
                if s[0] == 's':
                    out.append(('undefined-var-subscript', 'P0015', mut(i, (k, d[1], vs, body[:j] + [('s', s[1], s[2], 7996)] + body[j + 1:]))))
                    continue
                if s[0] == 'a':
                    out.append(('undefined-var-rhs', 'P0015', mut(i, (k, d[1], vs, body[:j] + [('a', s[1], s[2] + [7996])] + body[j + 1:]))))
                    if k != 'U' or s[1] != d[1]:
                        out.append(('undefined-var-target', 'P0015', mut(i, (k, d[1], vs, body[:j] + [('a', 7995, [])] + body[j + 1:]))))
                else:
                    inst, formal, pos, outs = s[1:]
                    callee = None
                    iv = next((v for v in vs if v['name'] == inst), None)
                    if iv and isinstance(iv['ty'], tuple): callee = fbnames.get(iv['ty'][1])
                    anyint = next((v['name'] for v in vs if v['ty'] == 'i'), None)
                    out.append(('call-instance-undeclared', 'P0021', mut(i, (k, d[1], vs, body[:j] + [('c', 7994, formal, pos, outs)] + body[j + 1:]))))
                    # an undeclared variable that is used nowhere but as an argument of the invocation (input, positional, output target)
                    if formal:
                        out.append(('undefined-var-call-arg', 'P0015', mut(i, (k, d[1], vs, body[:j] + [('c', inst, [(formal[0][0], 7996)] + list(formal[1:]), pos, outs)] + body[j + 1:]))))
                    if pos:
                        out.append(('undefined-var-call-arg', 'P0015', mut(i, (k, d[1], vs, body[:j] + [('c', inst, formal, [7996] + list(pos[1:]), outs)] + body[j + 1:]))))
                    if outs:
                        out.append(('undefined-var-call-arg', 'P0015', mut(i, (k, d[1], vs, body[:j] + [('c', inst, formal, pos, [(outs[0][0], 7996)] + list(outs[1:]))] + body[j + 1:]))))
                    if anyint is not None and callee is not None:
                        out.append(('call-formal-unknown', 'P0007', mut(i, (k, d[1], vs, body[:j] + [('c', inst, (formal if not pos else []) + [(7993, anyint)], [], outs)] + body[j + 1:]))))
                        out.append(('call-output-unknown', 'P0009', mut(i, (k, d[1], vs, body[:j] + [('c', inst, formal, pos, outs + [(7992, anyint)])] + body[j + 1:]))))
                        nin = len([v for v in callee[2] if v['cls'] == 'i'])
                        out.append(('call-positional-count', 'P0008', mut(i, (k, d[1], vs, body[:j] + [('c', inst, [], [anyint] * (nin + 1), outs)] + body[j + 1:]))))
                        cin = [v for v in callee[2] if v['cls'] in 'ix']
                        if cin:
                            out.append(('call-mixed', 'P0006', mut(i, (k, d[1], vs, body[:j] + [('c', inst, [(cin[0]['name'], anyint)], [anyint], outs)] + body[j + 1:]))))
    # unit level faults
    # a function block that contains itself through a new instance variable
    for i, d in enumerate(decls):
        if d[0] == 'F':
            out.append(('fb-self-instance', 'P0010', mut(i, ('F', d[1], d[2] + [var(ns.n + 7, 'v', ('n', d[1]))], d[3]))))
            break
    # duplicate declarations
    for i, d in enumerate(decls):
        if d[0] in 'ESR':
            ds = copy.deepcopy(decls); ds.append(('R', d[1], 1, 2))
            out.append(('dup-type-name', 'P0019', ds))
            break
    # a second declaration with the name of the first function block / function / program / configuration
    # (each kind of its own: the four are registered at different places of the analyzer)
    for kind in 'FUPC':
        for i, d in enumerate(decls):
            if d[0] == kind:
                ds = copy.deepcopy(decls)
                if kind == 'C':
                    progs = [x[1] for x in decls if x[0] == 'P']
                    ds.append(('C', d[1], [], [ns.n + 9], [(ns.n + 10, ns.n + 9, progs[0])] if progs else []))
                else:
                    ds.append(('P', d[1], [var(ns.n + 8, 'v', 'i')], [('a', ns.n + 8, [])]))
                out.append(('dup-pou-name', 'P0020', ds))
                break
    return out
