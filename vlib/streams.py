"""Running a stream of cases through the model driver and the implementation harness."""
import os, re
from . import core

JOBS = min(16, os.cpu_count() or 4)


def _category(msg):
    """violation message with numbers stripped (used to keep the same failure while shrinking)"""
    return re.sub(r'\d+', 'N', msg)[:60]


def eval_batch(ctx, reqs, model=True, impl=True, impl_exe=None):
    m = core.run_lines(core.PLCDRV, reqs, jobs=JOBS) if (model and ctx.model_available) else [None] * len(reqs)
    i = core.run_lines(impl_exe or core.VH, reqs, jobs=JOBS) if impl else [None] * len(reqs)
    return m, i


def shrink_text_case(ctx, case, req_of, judge, want_corr, category, text_key='text'):
    """greedy delta debugging on case[text_key]; each round evaluates all candidates in one batch"""
    cur = dict(case)
    rounds = 0
    while rounds < 40:
        rounds += 1
        t = cur[text_key]
        n = len(t)
        if n <= 1: break
        cands = []
        for size in sorted({max(n // 2, 1), max(n // 4, 1), max(n // 8, 1), 1}, reverse=True):
            for a in range(0, n, size):
                nt = t[:a] + t[a + size:]
                if nt != t: cands.append(nt)
            if len(cands) > 600: break
        seen = set()
        cands = [c for c in cands if not (c in seen or seen.add(c))]
        cc = [dict(cur, **{text_key: c}) for c in cands]
        try:
            reqs = [req_of(c) for c in cc]
        except Exception:
            break
        m, i = eval_batch(ctx, reqs, model=want_corr)
        found = None
        for c, mo, io in zip(cc, m, i):
            try:
                corr, viol = judge(ctx, c, mo, io)
            except Exception:
                continue
            if want_corr:
                if not corr: found = c; break
            else:
                if any(_category(v) == category for v in viol): found = c; break
        if found is None: break
        cur = found
    return cur


def run_stream(ctx, name, cases, req_of, judge, nontrivial=lambda c: True, shrink_text=False, known=None,
               impl_exe=None, text_key='text', model=True):
    """known: optional function (case, violation message) -> finding id or None"""
    reqs = [req_of(c) for c in cases]
    m, i = eval_batch(ctx, reqs, impl_exe=impl_exe, model=model)
    ctx.streams[name] = len(cases)
    nv0, nc0 = len(ctx.violations), len(ctx.corr_fail)
    for c, mo, io in zip(cases, m, i):
        ctx.evaluations += 1
        ctx.count(f'{name}:cases')
        corr, viol = judge(ctx, c, mo, io)
        if mo is not None: ctx.traces += 1
        if io is not None and io.startswith('PANIC'): ctx.count(f'{name}:impl-panic')
        if io is not None and io.startswith('DIED'): ctx.count(f'{name}:impl-died')
        if nontrivial(c):
            ctx.feature((name, c.get('feats', frozenset())))
        for f in c.get('feats', ()):
            ctx.count(f'{name}:feat:{f}')
        show = {k: v for k, v in c.items() if k != 'feats'}
        ctx.sample({'stream': name, 'case': _clip(show), 'impl': (io or '')[:300]}, limit=5)
        if not corr:
            ctx.corr_fail.append({'stream': name, 'case': show, 'model': mo, 'impl': io})
        for v in viol:
            kid = known(c, v) if known else None
            if kid:
                ctx.known_hits.append((kid, v))
            else:
                ctx.violations.append({'stream': name, 'case': show, 'what': v, 'impl': io, 'model': mo})
    # shrink the first new failure of each kind
    if shrink_text:
        if len(ctx.violations) > nv0:
            v = ctx.violations[nv0]
            small = shrink_text_case(ctx, v['case'], req_of, judge, False, _category(v['what']), text_key)
            mm, ii = eval_batch(ctx, [req_of(small)])
            _, viol = judge(ctx, small, mm[0], ii[0])
            v['minimised'] = {'case': small, 'impl': ii[0], 'model': mm[0], 'what': viol[:3]}
        if len(ctx.corr_fail) > nc0 and ctx.model_available:
            cf = ctx.corr_fail[nc0]
            small = shrink_text_case(ctx, cf['case'], req_of, judge, True, None, text_key)
            mm, ii = eval_batch(ctx, [req_of(small)])
            cf['minimised'] = {'case': small, 'impl': ii[0], 'model': mm[0]}


def _clip(d, n=400):
    out = {}
    for k, v in d.items():
        if isinstance(v, str) and len(v) > n: out[k] = v[:n] + '…'
        else: out[k] = v
    return out
