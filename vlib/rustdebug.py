"""Parser for Rust `{:?}` (single-line Debug) output and the canonical form shared with the Lean model.

canonical form: white space outside string/char literals removed, fields whose value is a `SourceSpan`
dropped, `RealLiteral.value` replaced by the IEEE-754 bits (`R:` prefix in the model = the text handed
to `f64::from_str`)."""
import sys
sys.setrecursionlimit(50000)
import struct


class T:   # tree node
    __slots__ = ('kind', 'name', 'items')
    def __init__(self, kind, name, items):
        self.kind, self.name, self.items = kind, name, items


def parse(s):
    pos = 0
    n = len(s)
    def skip():
        nonlocal pos
        while pos < n and s[pos] in ' \n\t': pos += 1
    steps = 0
    def value():
        nonlocal pos, steps
        skip()
        # a malformed text must end the parse, not loop: every call consumes at least one character
        steps += 1
        if steps > 2 * n + 10: raise ValueError('malformed Debug text (no progress at %d): %r' % (pos, s[max(0, pos - 30):pos + 30]))
        c = s[pos]
        if c == '[':
            pos += 1; items = []
            skip()
            while s[pos] != ']':
                items.append(value()); skip()
                if s[pos] == ',': pos += 1; skip()
            pos += 1
            return T('list', None, items)
        if c == '(':
            pos += 1; items = []
            skip()
            while s[pos] != ')':
                items.append(value()); skip()
                if s[pos] == ',': pos += 1; skip()
            pos += 1
            return T('tuple', '', items)
        if c == '"':
            j = pos + 1
            while s[j] != '"':
                j += 2 if s[j] == '\\' else 1
            tok = s[pos:j + 1]; pos = j + 1
            return T('atom', tok, None)
        if c == "'":
            j = pos + 1
            if s[j] == '\\':
                j += 2
                if s[j - 1] == 'u':
                    while s[j] != '}': j += 1
                    j += 1
            else:
                j += 1
            assert s[j] == "'", s[pos:pos + 20]
            tok = s[pos:j + 1]; pos = j + 1
            return T('atom', tok, None)
        # bare word: identifier / number / date-time etc. up to a delimiter
        j = pos
        while j < n and s[j] not in ',)]}{( \n':
            j += 1
        word = s[pos:j]
        pos = j
        # time values contain a space between date and time: `2024-01-02 3:04:05.0`
        if pos < n and s[pos] == ' ' and len(word) == 10 and word[4] == '-' and word[7] == '-':
            k = pos + 1
            while k < n and s[k] not in ',)]} ': k += 1
            nxt = s[pos + 1:k]
            if ':' in nxt:
                word = word + nxt; pos = k
        skip()
        if pos < n and s[pos] == '{':
            pos += 1; fields = []
            skip()
            while s[pos] != '}':
                k = pos
                while s[k] != ':': k += 1
                fname = s[pos:k].strip(); pos = k + 1
                fields.append((fname, value())); skip()
                if s[pos] == ',': pos += 1; skip()
            pos += 1
            return T('struct', word, fields)
        if pos < n and s[pos] == '(':
            pos += 1; items = []
            skip()
            while s[pos] != ')':
                items.append(value()); skip()
                if s[pos] == ',': pos += 1; skip()
            pos += 1
            return T('tuple', word, items)
        return T('atom', word, None)
    v = value()
    return v


def f64bits(text):
    try:
        return 'F' + struct.pack('>d', float(text)).hex()
    except Exception:
        return 'F?' + text


def canon(t, in_real=False):
    if t.kind == 'atom':
        return t.name
    if t.kind == 'list':
        return '[' + ','.join(canon(x) for x in t.items) + ']'
    if t.kind == 'tuple':
        # a SourceSpan payload (`InitialValueAssignmentKind::None(span)`) is dropped like a SourceSpan field
        return t.name + '(' + ','.join(canon(x) for x in t.items if not (x.kind == 'struct' and x.name == 'SourceSpan')) + ')'
    fields = []
    for fname, v in t.items:
        if v.kind == 'struct' and v.name == 'SourceSpan':
            continue
        if t.name == 'RealLiteral' and fname == 'value' and v.kind == 'atom':
            txt = v.name[2:] if v.name.startswith('R:') else v.name
            fields.append(fname + ':' + f64bits(txt)); continue
        fields.append(fname + ':' + canon(v))
    return t.name + '{' + ','.join(fields) + '}'


def canonical(s):
    return canon(parse(s))
