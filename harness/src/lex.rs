//! `lex`: tokenize_program on the real lexer, canonical one-line rendering.
//!
//! tokens: `Type:start:end:line:col:flag` where flag = `s` (empty text, i.e. synthetic),
//! `t` (text equals the source slice at the span), `x` (text differs from the slice / span invalid);
//! then ` | ` and the lexical errors `!:start:end` in order.
use ironplc_dsl::core::FileId;
use ironplc_parser::{options::ParseOptions, tokenize_program};

pub fn lex(src: &str) -> String {
    let fid = FileId::from_string("f.st");
    let (toks, diags) = tokenize_program(src, &fid, &ParseOptions::default());
    let mut parts: Vec<String> = Vec::new();
    for t in &toks {
        let flag = if t.text.is_empty() {
            "s"
        } else {
            match src.get(t.span.start..t.span.end) {
                Some(sl) if sl == t.text => "t",
                _ => "x",
            }
        };
        parts.push(format!(
            "{:?}:{}:{}:{}:{}:{}",
            t.token_type, t.span.start, t.span.end, t.line, t.col, flag
        ));
    }
    let mut errs: Vec<String> = Vec::new();
    for d in &diags {
        errs.push(format!(
            "!:{}:{}:{}",
            d.code, d.primary.location.start, d.primary.location.end
        ));
    }
    format!("{} | {}", parts.join(" "), errs.join(" "))
}
