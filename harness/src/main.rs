//! vh: runs the real ironplc code on the cases of the line protocol (same requests as `plcdrv`).
//!
//! One request per stdin line `<cmd> <arg>...`, one response line per request. Text arguments are
//! hex-encoded bytes. Every case runs under `catch_unwind`; a panic answers `PANIC <message>`.

use std::io::{BufRead, Write};
use std::panic::{catch_unwind, AssertUnwindSafe};

mod ana;
mod lex;
mod lit;
mod parse;
mod ids;
mod render;
mod total;

pub fn unhex(s: &str) -> Option<Vec<u8>> {
    let b = s.as_bytes();
    if b.len() % 2 != 0 {
        return None;
    }
    let v = |c: u8| -> Option<u8> {
        match c {
            b'0'..=b'9' => Some(c - b'0'),
            b'a'..=b'f' => Some(c - b'a' + 10),
            b'A'..=b'F' => Some(c - b'A' + 10),
            _ => None,
        }
    };
    let mut out = Vec::with_capacity(b.len() / 2);
    for i in (0..b.len()).step_by(2) {
        out.push(v(b[i])? * 16 + v(b[i + 1])?);
    }
    Some(out)
}

pub fn unhex_text(s: &str) -> Option<String> {
    String::from_utf8(unhex(s)?).ok()
}

pub fn hex(b: &[u8]) -> String {
    let mut s = String::with_capacity(b.len() * 2);
    for x in b {
        s.push_str(&format!("{:02x}", x));
    }
    s
}

/// an optional first argument `@names=<hex>,<hex>,...` gives the file names (default `f<i>.st`)
fn split_names<'a>(rest: &[&'a str]) -> (Vec<String>, Vec<&'a str>) {
    if let Some(first) = rest.first() {
        if let Some(list) = first.strip_prefix("@names=") {
            let names = list.split(',').filter_map(unhex_text).collect();
            return (names, rest[1..].to_vec());
        }
    }
    (Vec::new(), rest.to_vec())
}

fn handle(line: &str) -> String {
    let parts: Vec<&str> = line.trim().split(' ').collect();
    match parts.as_slice() {
        ["lex", h] => match unhex_text(h) {
            Some(t) => lex::lex(&t),
            None => "bad-arg".into(),
        },
        ["parse", h] => match unhex_text(h) {
            Some(t) => parse::parse(&t),
            None => "bad-arg".into(),
        },
        ["render", h] => match unhex_text(h) {
            Some(t) => render::render(&t),
            None => "bad-arg".into(),
        },
        ["total", "-"] => total::total(&[]),
        ["total", h] => match unhex(h) {
            Some(b) => total::total(&b),
            None => "bad-arg".into(),
        },
        ["ids", h] => match unhex_text(h) {
            Some(t) => ids::ids(&t),
            None => "bad-arg".into(),
        },
        ["lit", h] => match unhex_text(h) {
            Some(t) => lit::lit(&t),
            None => "bad-arg".into(),
        },
        ["projedit", rest @ ..] => {
            let (names, rest) = split_names(rest);
            let rest = &rest[..];
            let txt = |h: &str| -> Option<String> { if h == "-" { Some(String::new()) } else { unhex_text(h) } };
            let mut initial = Vec::new();
            let mut edits = Vec::new();
            let mut after = false;
            for h in rest {
                if *h == "|" { after = true; continue; }
                if h.is_empty() { continue; }
                if !after {
                    match txt(h) { Some(t) => initial.push(t), None => return "bad-arg".into() }
                } else {
                    let (i, hx) = match h.split_once(':') { Some(x) => x, None => return "bad-arg".into() };
                    match (i.parse::<usize>(), txt(hx)) {
                        (Ok(i), Some(t)) => edits.push((i, t)),
                        _ => return "bad-arg".into(),
                    }
                }
            }
            ana::projedit_cmd(&initial, &edits, &names)
        }
        [cmd @ ("analyze" | "project"), rest @ ..] => {
            let (names, rest) = split_names(rest);
            let mut texts = Vec::new();
            for h in rest.iter() {
                if h.is_empty() {
                    continue;
                }
                // `-` stands for the empty text
                let t = if *h == "-" { Some(String::new()) } else { unhex_text(h) };
                match t {
                    Some(t) => texts.push(t),
                    None => return "bad-arg".into(),
                }
            }
            if *cmd == "analyze" {
                ana::analyze_cmd(&texts, &names)
            } else {
                ana::project_cmd(&texts, &names)
            }
        }
        _ => "bad-op".into(),
    }
}

/// The stack the `ironplcc` binary gives its compiler thread (COMPILER_STACK_SIZE in plc2x/bin/main.rs, fix 1b7f80a):
/// the in-process observation runs the same code under the same stack, so that a stack overflow seen here is one the
/// product has too.
const COMPILER_STACK_SIZE: usize = 1024 * 1024 * 1024;

fn main() {
    let t = std::thread::Builder::new()
        .stack_size(COMPILER_STACK_SIZE)
        .spawn(serve)
        .expect("spawn");
    let _ = t.join();
}

fn serve() {
    // keep panic messages off stderr; they are reported in-band
    std::panic::set_hook(Box::new(|_| {}));
    let stdin = std::io::stdin();
    let stdout = std::io::stdout();
    let mut out = std::io::BufWriter::new(stdout.lock());
    for line in stdin.lock().lines() {
        let line = match line {
            Ok(l) => l,
            Err(_) => break,
        };
        if line.is_empty() {
            continue;
        }
        let r = catch_unwind(AssertUnwindSafe(|| handle(&line)));
        let resp = match r {
            Ok(s) => s,
            Err(e) => {
                let msg = if let Some(s) = e.downcast_ref::<&str>() {
                    s.to_string()
                } else if let Some(s) = e.downcast_ref::<String>() {
                    s.clone()
                } else {
                    "?".to_string()
                };
                format!("PANIC {}", msg.replace('\n', " "))
            }
        };
        writeln!(out, "{}", resp).unwrap();
        out.flush().unwrap();
    }
}
