//! `lit <program hex>`: parse the program and print, canonically, the initial value (or the direct
//! address) of the first variable of the first POU — the node C09 is about.
//!
//! answers: `int <-|+> <u128> <type|->`, `bits <u128> <type|->`, `real <f64 bits hex> <type|->`, `bool <0|1>`,
//! `str <codepoint,codepoint,…>`, `dur <nanoseconds>`, `tod h m s micro`, `date y m d`, `dt y m d h m s micro`,
//! `addr <I|Q|M> <size> <n.n.n>`, `none`, `other <debug>`, `ERR <code>`
use ironplc_dsl::common::*;
use ironplc_dsl::core::FileId;
use ironplc_parser::{options::ParseOptions, parse_program};

fn ty(t: &Option<ElementaryTypeName>) -> String {
    match t {
        Some(t) => format!("{:?}", t),
        None => "-".to_string(),
    }
}

fn constant(c: &ConstantKind) -> String {
    match c {
        ConstantKind::IntegerLiteral(i) => format!(
            "int {} {} {}",
            if i.value.is_neg { "-" } else { "+" },
            i.value.value.value,
            ty(&i.data_type)
        ),
        ConstantKind::BitStringLiteral(b) => format!("bits {} {}", b.value.value, ty(&b.data_type)),
        ConstantKind::RealLiteral(r) => format!("real {:016x} {}", r.value.to_bits(), ty(&r.data_type)),
        ConstantKind::Boolean(b) => format!("bool {}", if b.value == Boolean::True { 1 } else { 0 }),
        ConstantKind::CharacterString(s) => format!(
            "str {}",
            s.value.iter().map(|c| (*c as u32).to_string()).collect::<Vec<_>>().join(",")
        ),
        ConstantKind::Duration(d) => format!("dur {}", d.interval.whole_nanoseconds()),
        ConstantKind::TimeOfDay(t) => {
            let (h, m, s, u) = t.hmsm();
            format!("tod {} {} {} {}", h, m, s, u)
        }
        ConstantKind::Date(d) => {
            let (y, m, dd) = d.ymd();
            format!("date {} {} {}", y, m, dd)
        }
        ConstantKind::DateAndTime(d) => {
            let (y, m, dd) = d.ymd();
            let (h, mi, s, u) = d.hmsm();
            format!("dt {} {} {} {} {} {} {}", y, m, dd, h, mi, s, u)
        }
    }
}

pub fn lit(src: &str) -> String {
    let fid = FileId::from_string("f.st");
    let lib = match parse_program(src, &fid, &ParseOptions::default()) {
        Ok(l) => l,
        Err(d) => return format!("ERR {}", d.code),
    };
    let vars = match lib.elements.first() {
        Some(LibraryElementKind::ProgramDeclaration(p)) => &p.variables,
        Some(LibraryElementKind::FunctionBlockDeclaration(p)) => &p.variables,
        Some(LibraryElementKind::FunctionDeclaration(p)) => &p.variables,
        _ => return "other no-pou".to_string(),
    };
    let v = match vars.first() {
        Some(v) => v,
        None => return "other no-var".to_string(),
    };
    if let VariableIdentifier::Direct(d) = &v.identifier {
        let a = &d.address_assignment;
        return format!(
            "addr {:?} {:?} {}",
            a.location,
            a.size,
            a.address.iter().map(|x| x.to_string()).collect::<Vec<_>>().join(".")
        );
    }
    match &v.initializer {
        InitialValueAssignmentKind::Simple(s) => match &s.initial_value {
            Some(c) => constant(c),
            None => "none".to_string(),
        },
        InitialValueAssignmentKind::String(s) => match &s.initial_value {
            Some(cs) => format!(
                "str {}",
                cs.iter().map(|c| (*c as u32).to_string()).collect::<Vec<_>>().join(",")
            ),
            None => "none".to_string(),
        },
        other => format!("other {:?}", other).chars().take(200).collect(),
    }
}
