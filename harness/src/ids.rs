//! `ids <hex>`: parse the text as file `f.st` and list every `Id` a dsl `Visitor` reaches:
//! `OK <original-hex>@<start>-<end>@<file> ...` (C05: an identifier carries the span of its own spelling and the id
//! of the file it was read from).  Ids the parser makes up (elementary type names, ...) have the default span 0-0.
use ironplc_dsl::core::{FileId, Id};
use ironplc_dsl::visitor::Visitor;
use ironplc_parser::{options::ParseOptions, parse_program};

struct Ids(Vec<String>);
impl Visitor<()> for Ids {
    type Value = ();
    fn visit_id(&mut self, node: &Id) -> Result<(), ()> {
        self.0.push(format!(
            "{}@{}-{}@{}",
            crate::hex(node.original.as_bytes()),
            node.span.start,
            node.span.end,
            node.span.file_id
        ));
        Ok(())
    }
}

pub fn ids(src: &str) -> String {
    let fid = FileId::from_string("f.st");
    match parse_program(src, &fid, &ParseOptions::default()) {
        Ok(lib) => {
            let mut v = Ids(Vec::new());
            let _ = v.walk(&lib);
            format!("OK {}", v.0.join(" "))
        }
        Err(d) => format!("ERR {}@{}-{}", d.code, d.primary.location.start, d.primary.location.end),
    }
}
