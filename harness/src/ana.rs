//! `analyze f1hex f2hex ...`: parse each text as file `f<i>.st` and run `analyze` on the libraries
//! `project f1hex f2hex ...`: the same through `FileBackedProject::semantic` (in-memory multi-file project)
//!
//! answer: `OK` | `ERR <diag> <diag> ...` with `<diag>` = `code@file:start-end[+file:start-end...]`
//! (primary label first, then secondary labels); parse failures are reported as `PARSE<i>:<diag>` and,
//! for `analyze`, stop the run (the CLI/project path is the one that continues with the other files).
use ironplc_analyzer::stages::analyze;
use ironplc_dsl::core::FileId;
use ironplc_dsl::diagnostic::Diagnostic;
use ironplc_parser::{options::ParseOptions, parse_program};
use ironplcc::project::{FileBackedProject, Project};

pub fn show_diag(d: &Diagnostic) -> String {
    let mut s = format!(
        "{}@{}:{}-{}",
        d.code, d.primary.file_id, d.primary.location.start, d.primary.location.end
    );
    if d.code == "P9999" {
        // where in the analyzer the "not implemented" answer comes from
        let m: String = d.primary.message.chars().filter(|c| !c.is_whitespace()).collect();
        s.push_str(&format!("!{}", m.rsplit('/').next().unwrap_or("")));
    }
    for l in &d.secondary {
        s.push_str(&format!("+{}:{}-{}", l.file_id, l.location.start, l.location.end));
    }
    s
}

fn file_id(names: &[String], i: usize) -> FileId {
    match names.get(i) {
        Some(n) => FileId::from_string(n),
        None => FileId::from_string(&format!("f{}.st", i)),
    }
}

pub fn analyze_cmd(texts: &[String], names: &[String]) -> String {
    let mut libs = Vec::new();
    for (i, t) in texts.iter().enumerate() {
        let fid = file_id(names, i);
        match parse_program(t, &fid, &ParseOptions::default()) {
            Ok(lib) => libs.push(lib),
            Err(d) => return format!("ERR PARSE{}:{}", i, show_diag(&d)),
        }
    }
    let refs: Vec<&_> = libs.iter().collect();
    match analyze(&refs) {
        Ok(()) => "OK".to_string(),
        Err(ds) => format!(
            "ERR {}",
            ds.iter().map(show_diag).collect::<Vec<_>>().join(" ")
        ),
    }
}

pub fn project_cmd(texts: &[String], names: &[String]) -> String {
    let mut p = FileBackedProject::new();
    for (i, t) in texts.iter().enumerate() {
        let fid = file_id(names, i);
        p.change_text_document(&fid, t.clone());
    }
    match p.semantic() {
        Ok(()) => "OK".to_string(),
        Err(ds) => format!(
            "ERR {}",
            ds.iter().map(show_diag).collect::<Vec<_>>().join(" ")
        ),
    }
}

/// `projedit f1hex f2hex ... | i:hex i:hex ...`: the in-memory project first holds the texts before `|` and is
/// analysed, then every edit `i:hex` replaces file `i` (change_text_document) and the project is analysed again.
/// Answer: the result of the last analysis, in the format of `project` (C03/C11: it must equal a fresh project's).
pub fn projedit_cmd(initial: &[String], edits: &[(usize, String)], names: &[String]) -> String {
    let mut p = FileBackedProject::new();
    for (i, t) in initial.iter().enumerate() {
        let fid = file_id(names, i);
        p.change_text_document(&fid, t.clone());
    }
    let mut last = p.semantic().map_err(|ds| ds.iter().map(show_diag).collect::<Vec<_>>().join(" "));
    for (i, t) in edits {
        let fid = file_id(names, *i);
        p.change_text_document(&fid, t.clone());
        last = p.semantic().map_err(|ds| ds.iter().map(show_diag).collect::<Vec<_>>().join(" "));
    }
    match last {
        Ok(()) => "OK".to_string(),
        Err(s) => format!("ERR {}", s),
    }
}
