//! `parse <hex>`: `parse_program` and the `Debug` rendering of the library (one line), or `ERR code@start-end`.
//! `AddressAssignment` has a hand-written `Debug` that leaves out the numeric `address`; it is put back here
//! (collected by a visitor in declaration order, which is the order `Debug` prints in) so that the comparison
//! with the model and with the expected tree sees it.
use ironplc_dsl::common::{AddressAssignment, Library};
use ironplc_dsl::core::FileId;
use ironplc_dsl::visitor::Visitor;
use ironplc_parser::{options::ParseOptions, parse_program};

struct Addresses(Vec<Vec<u32>>);
impl Visitor<()> for Addresses {
    type Value = ();
    fn visit_address_assignment(&mut self, node: &AddressAssignment) -> Result<(), ()> {
        self.0.push(node.address.clone());
        Ok(())
    }
}

pub fn debug_with_addresses(lib: &Library) -> String {
    let text = format!("{:?}", lib);
    let mut v = Addresses(Vec::new());
    let _ = v.walk(lib);
    let marker = "AddressAssignment { location: ";
    let n = text.matches(marker).count();
    if n != v.0.len() {
        // cannot be matched up: keep the plain text and say so (the comparison will then fail visibly)
        return format!("{} ADDRESS-COUNT-MISMATCH {} {}", text, n, v.0.len());
    }
    let mut out = String::with_capacity(text.len() + 16 * n);
    let mut rest = text.as_str();
    for addr in v.0.iter() {
        let i = rest.find(marker).unwrap();
        let close = i + rest[i..].find(" }").unwrap();
        out.push_str(&rest[..close]);
        out.push_str(&format!(", address: {:?}", addr));
        rest = &rest[close..];
    }
    out.push_str(rest);
    out
}

pub fn parse(src: &str) -> String {
    let fid = FileId::from_string("f.st");
    match parse_program(src, &fid, &ParseOptions::default()) {
        Ok(lib) => format!("OK {}", debug_with_addresses(&lib)).replace('\n', "\\n"),
        Err(d) => format!("ERR {}@{}-{}", d.code, d.primary.location.start, d.primary.location.end),
    }
}
