//! `parse <hex>`: `parse_program` and the `Debug` rendering of the library (one line), or `ERR code@start-end`.
use ironplc_dsl::core::FileId;
use ironplc_parser::{options::ParseOptions, parse_program};

pub fn parse(src: &str) -> String {
    let fid = FileId::from_string("f.st");
    match parse_program(src, &fid, &ParseOptions::default()) {
        Ok(lib) => format!("OK {:?}", lib).replace('\n', "\\n"),
        Err(d) => format!("ERR {}@{}-{}", d.code, d.primary.location.start, d.primary.location.end),
    }
}
