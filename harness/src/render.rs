//! `render <hex>`: parse, re-render (`write_to_string`), parse the rendering again and compare.
//! answers: `SRCERR <code>` (the source itself does not parse: outside C10), `RENDERERR`,
//! `REPARSE <code>@<start>-<end> <rendered hex>`, `OK same=<0|1> fixed=<0|1> <rendered hex>`
use ironplc_dsl::core::FileId;
use ironplc_parser::{options::ParseOptions, parse_program};
use ironplc_plc2plc::write_to_string;

pub fn render(src: &str) -> String {
    let fid = FileId::from_string("f.st");
    let opts = ParseOptions::default();
    let lib = match parse_program(src, &fid, &opts) {
        Ok(l) => l,
        Err(d) => return format!("SRCERR {}", d.code),
    };
    let text = match write_to_string(&lib) {
        Ok(t) => t,
        Err(_) => return "RENDERERR".to_string(),
    };
    let lib2 = match parse_program(&text, &fid, &opts) {
        Ok(l) => l,
        Err(d) => {
            return format!(
                "REPARSE {}@{}-{} {}",
                d.code,
                d.primary.location.start,
                d.primary.location.end,
                crate::hex(text.as_bytes())
            )
        }
    };
    let same = lib == lib2;
    let fixed = match write_to_string(&lib2) {
        Ok(t2) => t2 == text,
        Err(_) => false,
    };
    format!(
        "OK same={} fixed={} {}",
        same as u8,
        fixed as u8,
        crate::hex(text.as_bytes())
    )
}
