//! `total <hex bytes>`: C04. The bytes are decoded the way `ironplcc` decodes a source file (lossy UTF-8 here: the
//! decoder cascade itself is C14's subject and is exercised through the binary), then every stage runs on the text:
//! tokenize_program, parse_program, analyze (through the in-memory project) and write_to_string, each under its own
//! `catch_unwind`, each timed.  Answer: `lex=<r>:<ms> parse=<r>:<ms> analyze=<r>:<ms> render=<r>:<ms>` where `<r>` is
//! `ok`, `err` (a diagnostic was returned), `skip` (stage needs the previous one) or `PANIC(<message>)`.
use ironplc_dsl::core::FileId;
use ironplc_parser::{options::ParseOptions, parse_program, tokenize_program};
use ironplc_plc2plc::write_to_string;
use std::panic::{catch_unwind, AssertUnwindSafe};
use std::time::Instant;

fn msg(e: Box<dyn std::any::Any + Send>) -> String {
    let m = e
        .downcast_ref::<&str>()
        .map(|s| s.to_string())
        .or_else(|| e.downcast_ref::<String>().cloned())
        .unwrap_or_else(|| "?".into());
    m.replace(' ', "_").replace('\n', "_")
}

pub fn total(bytes: &[u8]) -> String {
    let text = String::from_utf8_lossy(bytes).to_string();
    let fid = FileId::from_string("f.st");
    let opts = ParseOptions::default();
    let mut out = Vec::new();

    let t = Instant::now();
    let r = catch_unwind(AssertUnwindSafe(|| tokenize_program(&text, &fid, &opts)));
    out.push(format!(
        "lex={}:{}",
        match &r {
            Ok((_, errs)) => if errs.is_empty() { "ok".to_string() } else { "err".to_string() },
            Err(_) => "PANIC".to_string(),
        },
        t.elapsed().as_millis()
    ));
    if let Err(e) = r {
        out.push(format!("PANIC(lex:{})", msg(e)));
    }

    let t = Instant::now();
    let r = catch_unwind(AssertUnwindSafe(|| parse_program(&text, &fid, &opts)));
    let lib = match r {
        Ok(Ok(lib)) => {
            out.push(format!("parse=ok:{}", t.elapsed().as_millis()));
            Some(lib)
        }
        Ok(Err(d)) => {
            out.push(format!("parse=err-{}:{}", d.code, t.elapsed().as_millis()));
            None
        }
        Err(e) => {
            out.push(format!("parse=PANIC:{} PANIC(parse:{})", t.elapsed().as_millis(), msg(e)));
            None
        }
    };

    let t = Instant::now();
    let r = catch_unwind(AssertUnwindSafe(|| crate::ana::analyze_cmd(&[text.clone()], &[])));
    match r {
        Ok(s) => out.push(format!(
            "analyze={}:{}",
            if s.starts_with("OK") { "ok" } else { "err" },
            t.elapsed().as_millis()
        )),
        Err(e) => out.push(format!("analyze=PANIC:{} PANIC(analyze:{})", t.elapsed().as_millis(), msg(e))),
    }

    match lib {
        Some(lib) => {
            let t = Instant::now();
            let r = catch_unwind(AssertUnwindSafe(|| write_to_string(&lib)));
            match r {
                Ok(Ok(_)) => out.push(format!("render=ok:{}", t.elapsed().as_millis())),
                Ok(Err(_)) => out.push(format!("render=err:{}", t.elapsed().as_millis())),
                Err(e) => out.push(format!("render=PANIC:{} PANIC(render:{})", t.elapsed().as_millis(), msg(e))),
            }
        }
        None => out.push("render=skip:0".to_string()),
    }
    out.join(" ")
}
