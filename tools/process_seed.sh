#!/bin/bash
# tools/process_seed.sh <seed root> <worktree prefix> <Cxx> <variant> [check ids...]: confirm the seed in its scratch worktree, copy it to
# /verif/seeded/<Cxx>/<variant>/ and run the given checks (default: the check of the property) against it.
ROOT=$1; WTP=$2; P=$3; V=$4; shift 4
cd /verif
line=$(tools/confirm_seed.sh $P $V $ROOT $WTP 2>&1 | tail -1)
echo "$line"
case "$line" in *confirmed=yes*) ;; *) exit 1;; esac
mkdir -p seeded/$P/$V; cp -r $ROOT/$P/$V/. seeded/$P/$V/
timeout 1800 python3 tools/seedtest.py seeded/$P/$V ${@:-$P} 2>&1 | grep -vE "^WARNING" | tail -3
