#!/bin/bash
# tools/confirm_seed.sh <Cxx> <variant> [seed root, default /tmp/seedwork] [worktree prefix, default /tmp/wt_]
# Confirms a seeded change in the scratch worktree /tmp/wt_<Cxx>: clean tree -> demo passes; patch applies, builds,
# the repository's tests pass, demo fails; tree restored.  Prints one CONFIRM line.
P=$1; V=$2; ROOT=${3:-/tmp/seedwork}
WT=${4:-/tmp/wt_}$P; SD=$ROOT/$P/$V
export CARGO_TARGET_DIR=$WT/target CARGO_NET_OFFLINE=true WT
git -C $WT checkout -q -- . ; git -C $WT clean -qfd -e target
DEMO=$SD/demo/demo.sh
[ -f "$DEMO" ] || DEMO=$(ls $SD/demo/*.sh 2>/dev/null | head -1)
[ -n "$DEMO" ] || { echo "CONFIRM $P/$V no-demo-script"; exit 2; }
(cd $WT/compiler && cargo build --offline -q 2>/dev/null)
(cd $SD/demo && bash $DEMO) > $SD/confirm_clean.txt 2>&1; rc_clean=$?
git -C $WT apply $SD/patch.diff || { echo "CONFIRM $P/$V patch-does-not-apply"; exit 2; }
(cd $WT/compiler && cargo test --workspace --offline 2>&1 | grep -E '^test result|FAILED|failed|error(\[|:)' ) > $SD/confirm_tests.txt 2>&1
fails=$(grep -cE 'FAILED|[1-9][0-9]* failed|error(\[|:)' $SD/confirm_tests.txt)
npass=$(awk '/^test result/ {s+=$4} END {print s}' $SD/confirm_tests.txt)
(cd $WT/compiler && cargo build --offline -q 2>/dev/null)
(cd $SD/demo && bash $DEMO) > $SD/confirm_patched.txt 2>&1; rc_patched=$?
git -C $WT checkout -q -- . ; git -C $WT clean -qfd -e target
ok=no; [ $rc_clean -eq 0 ] && [ $rc_patched -ne 0 ] && [ "$fails" = 0 ] && [ "${npass:-0}" -ge 140 ] && ok=yes
echo "CONFIRM $P/$V demo_clean_rc=$rc_clean demo_patched_rc=$rc_patched tests_passed=$npass test_failures=$fails confirmed=$ok"
