#!/usr/bin/env python3
"""dev helper: run a check, and when it fails print a compact summary of the replay it wrote"""
import json, re, subprocess, sys, collections
prop = sys.argv[1]
p = subprocess.run(['/verif/check', prop] + sys.argv[2:], capture_output=True, text=True)
print(p.stdout.strip().split('\n')[-1] if p.stdout.strip() else p.stderr[-2000:])
m = re.search(r'replay=(\S+)', p.stdout)
if p.returncode and m:
    r = json.load(open('/verif/' + m.group(1)))
    print('kind', r['kind'], 'broken', r.get('broken_obligations'))
    vs = ([r['violation']] + r.get('more', [])) if r.get('violation') else []
    cat = collections.Counter((x.get('stream'), re.sub(r'\d+', 'N', x['what'])[:100]) for x in vs)
    for k, n in cat.most_common(): print(' ', n, k)
    def clip(x, n=700):
        s = json.dumps(x, default=str) if not isinstance(x, str) else x
        return s[:n]
    for v in vs[:2]:
        print('VIOL', v['what'][:400]); print('  impl', clip(v.get('impl'), 300)); print('  model', clip(v.get('model'), 300))
        c = v['case']; print('  case', clip({k: c[k] for k in c if k != 'texts'}, 900))
        if v.get('minimised'): print('  MIN', clip(v['minimised'], 900))
    cf = r.get('correspondence_failures', [])
    print('corr failures', len(cf))
    for c in cf[:3]:
        print('CORR model', clip(c.get('model'), 300)); print('     impl ', clip(c.get('impl'), 300))
        cc = c['case']; print('     case', clip({k: cc[k] for k in cc if k != 'texts'}, 900))
        if c.get('minimised'): print('     MIN', clip(c['minimised'], 600))
elif p.returncode:
    print(p.stderr[-3000:])
