#!/usr/bin/env python3
"""Run the registered quick checks against a seeded change: tools/seedtest.py <seed dir> [check ids...]
Applies <seed dir>/patch.diff to /repo (git apply), runs the checks, restores /repo (git checkout -- .), writes
<seed dir>/result.json: which checks reported a VIOLATION (and how), which stayed OK."""
import json, os, subprocess, sys, time
V = os.path.dirname(os.path.dirname(os.path.abspath(__file__)))
seed = os.path.abspath(sys.argv[1])
ids = sys.argv[2:] or [f'C{i:02d}' for i in range(1, 16)]
patch = os.path.join(seed, 'patch.diff')
assert subprocess.run(['git', '-C', '/repo', 'status', '--porcelain', '--untracked-files=no'], capture_output=True, text=True).stdout.strip() == '', '/repo is not clean'
r = subprocess.run(['git', '-C', '/repo', 'apply', patch], capture_output=True, text=True)
if r.returncode != 0:
    print('patch does not apply:', r.stderr); sys.exit(2)
res = {}
try:
    for pid in ids:
        t = time.time()
        p = subprocess.run([os.path.join(V, 'check'), pid, '--tier', 'quick'], capture_output=True, text=True, cwd=V)
        lines = [l for l in p.stdout.split('\n') if l.startswith('VIOLATION') or l.startswith('OK ')]
        entry = {'rc': p.returncode, 'line': lines[-1] if lines else (p.stdout[-300:] + p.stderr[-300:]), 'secs': round(time.time() - t, 1)}
        if p.returncode != 0 and lines and 'replay=' in lines[-1]:
            rp = lines[-1].split('replay=')[1].split()[0]
            try:
                j = json.load(open(os.path.join(V, rp)))
                v = j.get('violation') or {}
                entry['what'] = (v.get('what') or '; '.join(j.get('no_longer_checks', [])))[:300]
                entry['kind'] = j.get('kind')
            except Exception as e:
                entry['what'] = 'replay unreadable: ' + str(e)
        res[pid] = entry
        print(pid, entry['rc'], entry.get('kind', ''), entry.get('what', '')[:150], flush=True)
finally:
    subprocess.run(['git', '-C', '/repo', 'checkout', '--', '.'])
json.dump({'seed': os.path.relpath(seed, V), 'checks': res, 'caught_by': [k for k, v in res.items() if v['rc'] != 0]}, open(os.path.join(seed, os.environ.get('SEEDTEST_OUT', 'result.json')), 'w'), indent=1)
print('caught by', [k for k, v in res.items() if v['rc'] != 0])
