#!/usr/bin/env python3
"""Regenerates /verif/MANIFEST.json from tools/claims.json (property -> level text etc.)."""
import json, os
V = os.path.dirname(os.path.dirname(os.path.abspath(__file__)))
props = [json.loads(l) for l in open(os.path.join(V, 'properties.jsonl'))]
claims = json.load(open(os.path.join(V, 'tools', 'claims.json')))
m = {"version": 1,
     "setup_cmd": "./check setup",
     "hooks": {"guard": "ironplc_verif",
               "enable": "no hooks are needed: every observation point is public API or the ironplcc binary (RUSTFLAGS='--cfg ironplc_verif' would enable hooks if any were added)",
               "baseline_off_cmd": "cd /repo/compiler && cargo test --workspace --no-fail-fast --offline",
               "source_commits": [], "add_only": True},
     "engines": [
         {"name": "lean-model", "path": "lean/", "serves_properties": sorted(claims['claimed']),
          "kind_free_text": "Lean 4 executable model (PlcModel, core only, driver exe plcdrv) + theorems (PlcProofs); tables Gen/*.lean regenerated from /repo by translator/gen_tables.py on every run"},
         {"name": "vh", "path": "harness/", "serves_properties": sorted(claims['claimed']),
          "kind_free_text": "Rust harness (path deps on /repo/compiler/*) and scripted CLI/LSP clients running the real code for the correspondence check and the property oracles"}],
     "checks": [], "not_applicable": [],
     "notes": "See DESIGN.md. Genuine defects found are fixed in /repo (commits starting 'fix:') and recorded in known_findings.jsonl."}
for p in props:
    pid = p['id']
    if pid in claims['claimed']:
        c = claims['claimed'][pid]
        m['checks'].append({
            "property_id": pid, "quick_cmd": f"./check {pid} --tier quick", "thorough_cmd": f"./check {pid} --tier thorough",
            "evidence_file": f"evidence/{pid}.json", "replay_cmd_template": "./check replay {path}", "engine": "lean-model",
            "level_claimed": {"category": "proof", "text": c['text'], "design_ref": f"DESIGN.md section 4, {pid}"},
            "level_note": c.get('note', "trusted: Lean kernel (axioms propext, Classical.choice, Quot.sound only), translator/gen_tables.py, the correspondence harness; the Rust code is modelled by hand and tied by generated tables and differential testing, not verified"),
            "technique": c.get('technique', "Lean 4 theorems over an executable model; model tied to /repo by generated tables and a correspondence check")})
    else:
        m['not_applicable'].append({"property_id": pid, "reason": claims['unclaimed'].get(pid, "check not built yet (planned; see DESIGN.md section 7)")})
json.dump(m, open(os.path.join(V, 'MANIFEST.json'), 'w'), indent=1)
print('claimed', sorted(claims['claimed']))
