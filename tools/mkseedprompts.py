#!/usr/bin/env python3
"""tools/mkseedprompts.py <root> <worktree prefix> <variant> [<variant2>]: write one seeding prompt per property under <root>
(prompt_<id>.txt) for fresh sub-agents.  A prompt holds only the text of the property, the summaries of the changes already
used for it (so that new ones differ) and the agent's own scratch worktree - nothing else from /verif."""
import glob, json, os, sys

HERE = os.path.dirname(os.path.dirname(os.path.abspath(__file__)))
root, wtp, variants = sys.argv[1], sys.argv[2], sys.argv[3:]
os.makedirs(root, exist_ok=True)
props = [json.loads(l) for l in open(os.path.join(HERE, 'properties.jsonl'))]
for p in props:
    pid = p['id']
    wt = f'{wtp}{pid}'
    used = []
    for m in sorted(glob.glob(os.path.join(HERE, 'seeded', pid, '*', 'meta.json'))):
        try: used.append(json.load(open(m)).get('summary', '')[:200])
        except Exception: pass
    n = len(variants)
    names = ' and '.join(f'variant {v}' for v in variants)
    anchored = p.get('anchors') or {}
    if isinstance(anchored, dict): anchored = ', '.join(anchored.get('files', []))
    elif isinstance(anchored, list): anchored = ', '.join(str(a) for a in anchored)
    quant = p.get('quantifier') or ''
    if isinstance(quant, dict): quant = quant.get('text', '')
    text = f"""You are helping to evaluate a verification framework for the open-source project ironplc (a Rust front end for IEC 61131-3 Structured Text: lexer, PEG parser, semantic analyzer, re-renderer `plc2plc`, CLI `ironplcc check|echo|tokenize`, LSP server). You have your OWN scratch git worktree of the repository at {wt} (work ONLY there; never touch /repo or /verif, never read /verif). The sandbox has no network; build with `cd {wt}/compiler && CARGO_TARGET_DIR={wt}/target cargo build --offline` and run the existing tests with `cd {wt}/compiler && CARGO_TARGET_DIR={wt}/target cargo test --workspace --offline` (about 150 tests; all pass on the unchanged tree).

THE PROPERTY (id {pid}): {p.get('title', '')}
Statement: {p.get('statement', '')}
Quantified over: {quant}
Anchored in: {anchored}

YOUR TASK: produce {'ONE' if n == 1 else 'TWO independent,'} realistic source change{'s' if n > 1 else ''} (call {'it' if n == 1 else 'them'} {names}) to ironplc that BREAK{'S' if n == 1 else ''} this property while the code still COMPILES and ALL EXISTING TESTS STILL PASS (unedited). It should look like a plausible refactoring / optimisation / well-meant fix that a maintainer could make by mistake - not sabotage with an obvious marker. It must need something SPECIFIC to manifest: a particular unusual input, a multi-step sequence of operations, a particular order/partition/interleaving, a boundary value, or two cooperating sites that each look fine alone. A change that ordinary use (the first-steps examples, any simple program) would expose at once is not wanted. {'The variants must use different mechanisms and different places in the code. ' if n > 1 else ''}It must differ from these earlier changes, which have already been used (stay away from their places and mechanisms):
""" + ''.join(f'  - {u}\n' for u in used) + f"""
For each variant do all of this yourself:
 1. Start from a clean worktree (`git -C {wt} checkout -- . && git -C {wt} clean -fd -e target`), make the change, build, run the full test suite and confirm every test passes.
 2. Write a demonstration - a small shell script `demo.sh` plus input files (or a Rust test file plus instructions) - that exits 0 / passes on the unchanged tree and exits non-zero / fails with the change applied, and that shows the property (as stated above) being violated, not just any behavioural difference. Run it both ways and record the output.
 3. Save, under {root}/{pid}/<variant>/ : `patch.diff` (output of `git -C {wt} diff`, must apply with `git apply` to the unchanged tree), `demo/` (the demonstration files, with paths relative or using the environment variable WT, default {wt}; demo/demo.sh is run from inside demo/), `test_output.txt` (tail of the cargo test run with the change), and `meta.json` with keys: property ("{pid}"), variant, summary (one or two sentences: what the change does and the visible misbehaviour), files (list), mechanism (why it looks innocent, how it works), trigger (exactly what is needed to manifest and why ordinary use does not show it), tests_pass (true), demo (the command you ran and what it printed with and without the change).
 4. Restore the worktree to clean at the end (leave {wt} clean; leave the target directory, it will be removed by the caller).

Do not weaken or edit existing tests. Do not add dependencies. Keep the patch small (a few to a few dozen lines). If a candidate turns out to fail an existing test or not to violate the property as stated, discard it and find another. Finish with a short report: the summary, and confirmation of (compiles, tests pass, demo fails with / passes without).
"""
    open(os.path.join(root, f'prompt_{pid}.txt'), 'w').write(text)
    os.makedirs(os.path.join(root, pid), exist_ok=True)
print(f'{len(props)} prompts under {root}')
