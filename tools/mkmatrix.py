#!/usr/bin/env python3
"""Regenerates the detection matrix in DESIGN.md (between the markers) from seeded/<id>/<v>/{meta,result}.json."""
import glob, json, os, re
V = os.path.dirname(os.path.dirname(os.path.abspath(__file__)))
rows = []
ids = [f'C{i:02d}' for i in range(1, 16)]
for d in sorted(glob.glob(os.path.join(V, 'seeded', 'C*', '[a-z]'))):
    try:
        meta = json.load(open(os.path.join(d, 'meta.json')))
        res = json.load(open(os.path.join(d, 'result.json')))
    except Exception as e:
        continue
    # the latest run of the targeted check (tools/seedtest.py with SEEDTEST_OUT=result_current.json) replaces its column
    try:
        cur = json.load(open(os.path.join(d, 'result_current.json')))
        res['checks'].update(cur['checks'])
    except Exception:
        pass
    name = os.path.relpath(d, os.path.join(V, 'seeded'))
    cells = []
    for pid in ids:
        c = res['checks'].get(pid)
        if c is None: cells.append('·')
        elif c['rc'] == 0: cells.append(' ')
        elif c.get('kind') == 'oracle-violation': cells.append('**V**')
        else: cells.append('n')
    target = name.split('/')[0]
    rows.append((name, meta.get('summary', '').replace('|', '/').replace('\n', ' ')[:110], cells, res['checks'].get(target, {}).get('rc', 0) != 0))
out = ['| seeded change | what it does | ' + ' | '.join(i[1:] for i in ids) + ' |', '|---|---|' + '---|' * len(ids)]
for name, summ, cells, ok in rows:
    out.append(f'| {name} | {summ} | ' + ' | '.join(cells) + ' |')
n = len(rows); hit = sum(1 for r in rows if r[3]); anyhit = sum(1 for r in rows if any(c in ('**V**', 'n') for c in r[2]))
out.append('')
out.append(f'{n} seeded changes; the check of the targeted property reports {hit} of them, some check reports {anyhit}. '
           '**V** = VIOLATION with a failing input (oracle), n = VIOLATION `no-failing-input-found` (a theorem or the correspondence '
           'broke but the property itself was not seen to fail by that check), blank = the check stayed OK, · = not run.')
text = '\n'.join(out)
p = os.path.join(V, 'DESIGN.md')
s = open(p).read()
a, b = '<!-- MATRIX-BEGIN -->', '<!-- MATRIX-END -->'
if a in s:
    s = s[:s.index(a) + len(a)] + '\n' + text + '\n' + s[s.index(b):]
    open(p, 'w').write(s)
print(text)
